(* MountFS (Route/Composite.v): two-path calls (move / copy) inside one member and across members. *)
From Coq Require Import List NArith ZArith Bool Arith Lia Permutation Sorting.
From PyFS Require Import Base.PyStr Base.Outcome Path.PathModel Path.PathSpec Path.PathProofs FS.Tree FS.Monad FS.Mode FS.Base FS.Mem FS.Ops FS.Ref
     FS.Agree FS.Wf FS.TreeLemmas FS.RefineLemmas FS.PropsProofs FS.RefineWalkLemmasBfs
     Route.Route Route.RouteProofs Route.Composite Route.CompositeLemmas Route.CompositeEx Route.CompMount.
Import ListNotations.
Local Open Scope monad_scope.

(* ------------------------------------------------------------------ *)
(* F1: move inside one member                                          *)
(* ------------------------------------------------------------------ *)
Definition move_body {S} (L : low S) (_src _dst : str) (overwrite preserve_time : bool) : M S unit :=
  e <- (if overwrite then ret false else b_exists L _dst) ;;
  if e then raise DestinationExists
  else
    i <- l_getinfo L _src ;;
    if i_isdir i then raise FileExpected
    else if str_eqb _src _dst then ret tt
    else
      d <- l_openread L _src ;;
      _ <- b_upload L _dst d ;;
      _ <- (if preserve_time then b_copy_modified_time L _src _dst else ret tt) ;;
      l_remove L _src.

Lemma b_move_body {S} (L : low S) s d ov pt :
  b_move L s d ov pt = (_src <- l_validatepath L s ;; _dst <- l_validatepath L d ;; move_body L _src _dst ov pt).
Proof. reflexivity. Qed.

Lemma remove_spelling a b : rpath a = rpath b -> mem_remove a = mem_remove b.
Proof. intro H. unfold mem_remove. rewrite (validatepath_fun_spelling _ _ H). reflexivity. Qed.

Lemma tracks_move_body E _src _dst rs rd gs gd _src' _dst' ov pt :
  (forall A (f : str -> MM A), tracks E (route _src f) (f rs)) ->
  (forall A (f : str -> MM A), tracks E (route _dst f) (f rd)) ->
  tracks E (mount_getinfo _src) (x <- mem_getinfo rs ;; ret (gs x)) ->
  (forall x, i_isdir (gs x) = i_isdir x) -> (forall x, i_mt (gs x) = i_mt x) ->
  tracks E (mount_getinfo _dst) (x <- mem_getinfo rd ;; ret (gd x)) ->
  rpath _src' = rpath rs -> rpath _dst' = rpath rd -> str_eqb _src _dst = str_eqb _src' _dst' ->
  tracks E (move_body mount_low _src _dst ov pt) (move_body mem_low _src' _dst' ov pt).
Proof.
  intros Hs Hd Hgs Hisd Hmt Hgd Rs Rd Heq. unfold move_body. apply tracks_bind.
  { destruct ov; [apply tracks_ret|]. rewrite (exists_spelling _ _ Rd). apply (tracks_exists _ _ _ gd Hgd). }
  intros [|]; [apply tracks_raise|].
  cbn [l_getinfo l_openread l_remove mount_low mem_low].
  rewrite (getinfo_spelling _ _ Rs). apply (tracks_bind_getinfo _ _ _ gs Hgs).
  intro i0. rewrite Hisd. destruct (i_isdir i0); [apply tracks_raise|].
  rewrite Heq. destruct (str_eqb _src' _dst'); [apply tracks_ret|].
  apply tracks_bind.
  { rewrite (openread_spelling _ _ Rs). apply Hs. }
  intro data. apply tracks_bind.
  { unfold b_upload. cbn [l_openwrite mount_low mem_low]. rewrite (openwrite_spelling _ _ _ _ Rd).
    apply tracks_openwrite; [exact Hd|reflexivity]. }
  intros _. apply tracks_bind.
  { destruct pt; [|apply tracks_ret].
    unfold b_copy_modified_time. cbn [l_getinfo l_setinfo mount_low mem_low].
    rewrite (getinfo_spelling _ _ Rs). apply (tracks_bind_getinfo _ _ _ gs Hgs).
    intro i1. rewrite Hmt. rewrite (setinfo_spelling _ _ _ Rd). apply (Hd _ (fun x => mem_setinfo x (i_mt i1))). }
  intros _. unfold mount_remove. rewrite (remove_spelling _ _ Rs). apply Hs.
Qed.

(* F1: move inside ONE member = the generic FS.move on that member *)
Theorem mount_move_within : forall s d ov pt st i rs rd, mount_keys_ok st = true -> i < length (t_mounts st) ->
  mount_delegate (mounts_of st) s = Ok (Some (i, rs)) -> mount_delegate (mounts_of st) d = Ok (Some (i, rd)) ->
  mount_run (OMove s d ov pt) st = on_mount i (vmap (fun _ => VUnit) (b_move mem_low rs rd ov pt)) st.
Proof.
  intros s d ov pt st i rs rd Hok Hi Hs Hd.
  destruct (mount_keys_ok_mcs _ Hok) as (mcs & Hk & Hg).
  destruct (delegate_keyed_inv _ _ _ _ _ Hk Hg Hs) as (cs & mc & r1 & Rs & I1 & Ecs & Ers).
  destruct (delegate_keyed_inv _ _ _ _ _ Hk Hg Hd) as (cd & mc' & r2 & Rd & I2 & Ecd & Erd).
  assert (mc' = mc) by (eapply combine_seq_fun; eassumption). subst mc'.
  pose proof (resolve_comps_good s cs Rs) as Gs. pose proof (resolve_comps_good d cd Rd) as Gd.
  assert (Ns : normpath s = Ok (to_path (starts_c slash s) cs)).
  { rewrite normpath_spec. unfold spec_normpath. rewrite Rs. reflexivity. }
  assert (Nd : normpath d = Ok (to_path (starts_c slash d) cd)).
  { rewrite normpath_spec. unfold spec_normpath. rewrite Rd. reflexivity. }
  assert (g1 : Forall good r1) by (subst cs; apply Forall_app in Gs; tauto).
  assert (g2 : Forall good r2) by (subst cd; apply Forall_app in Gd; tauto).
  apply tracks_on_mount; [exact Hi|]. intros c t0 Hn.
  cbn [mount_run]. apply tracks_vmap.
  rewrite !b_move_body. cbn [l_validatepath mount_low mem_low].
  pose proof (tracks_route_member _ _ _ _ _ _ Hn Hs) as Ts.
  pose proof (tracks_route_member _ _ _ _ _ _ Hn Hd) as Td.
  apply (tracks_validate _ s rs _ _ _ Ts Ns). intros cs' Rcs'.
  apply (tracks_validate _ d rd _ _ _ Td Nd). intros cd' Rcd'.
  assert (cs' = r1).
  { apply rpath_inl in Rcs' as [_ Q]. rewrite Ers, (resolve_comps_nf false r1 g1) in Q. congruence. }
  assert (cd' = r2).
  { apply rpath_inl in Rcd' as [_ Q]. rewrite Erd, (resolve_comps_nf false r2 g2) in Q. congruence. }
  subst cs' cd'.
  apply (tracks_move_body _ _ _ rs rd (mount_point_name (abspath (to_path (starts_c slash s) cs)) rs)
           (mount_point_name (abspath (to_path (starts_c slash d) cd)) rd)).
  - intros A f. apply (tracks_route_member _ _ _ _ _ _ Hn). rewrite (mount_delegate_validated _ _ _ Ns). exact Hs.
  - intros A f. apply (tracks_route_member _ _ _ _ _ _ Hn). rewrite (mount_delegate_validated _ _ _ Nd). exact Hd.
  - apply (tracks_getinfo_member _ _ _ _ _ _ Hn). rewrite (mount_delegate_validated _ _ _ Ns). exact Hs.
  - intro x. apply mount_point_name_isdir.
  - intro x. apply mount_point_name_mt.
  - apply (tracks_getinfo_member _ _ _ _ _ _ Hn). rewrite (mount_delegate_validated _ _ _ Nd). exact Hd.
  - rewrite Rcs'. apply rpath_nf. apply (rpath_vp _ _ Rcs').
  - rewrite Rcd'. apply rpath_nf. apply (rpath_vp _ _ Rcd').
  - rewrite !abspath_nf_gen by assumption. subst cs cd. apply to_path_eqb_app; assumption.
Qed.
Print Assumptions mount_move_within.

(* ------------------------------------------------------------------ *)
(* F2: frame for two-path calls inside one member                      *)
(* ------------------------------------------------------------------ *)
Lemma on_mount_frame {A} i (m : MM A) st :
  t_default (fst (on_mount i m st)) = t_default st /\
  map fst (t_mounts (fst (on_mount i m st))) = map fst (t_mounts st) /\
  forall j, j <> i -> mount_tree (fst (on_mount i m st)) j = mount_tree st j.
Proof.
  rewrite on_mount_fst. cbn [t_default t_mounts].
  destruct (on_nth_frame i m (t_mounts st)) as [F1 F2].
  split; [reflexivity|]. split.
  - symmetry. exact F1.
  - intros j Hj. unfold mount_tree. cbn [t_mounts]. apply F2. congruence.
Qed.

Theorem mount_frame_within : forall o s d ov pt st i rs rd, (o = OMove s d ov pt \/ o = OCopy s d ov pt) ->
  mount_keys_ok st = true -> i < length (t_mounts st) ->
  mount_delegate (mounts_of st) s = Ok (Some (i, rs)) -> mount_delegate (mounts_of st) d = Ok (Some (i, rd)) ->
  t_default (fst (mount_run o st)) = t_default st /\ map fst (t_mounts (fst (mount_run o st))) = map fst (t_mounts st) /\
  forall j, j <> i -> mount_tree (fst (mount_run o st)) j = mount_tree st j.
Proof.
  intros o s d ov pt st i rs rd [Ho|Ho] Hok Hi Hs Hd; subst o.
  - rewrite (mount_move_within s d ov pt st i rs rd Hok Hi Hs Hd). apply on_mount_frame.
  - rewrite (mount_copy_within s d ov pt st i rs rd Hok Hi Hs Hd). apply on_mount_frame.
Qed.
Print Assumptions mount_frame_within.

(* ------------------------------------------------------------------ *)
(* F3 / F4: across two members                                         *)
(* ------------------------------------------------------------------ *)
Lemma bind_ok {S A B} (m : M S A) (f : A -> M S B) s s' a : m s = (s', Ok a) -> mbind m f s = f a s'.
Proof. intro H. unfold mbind. rewrite H. reflexivity. Qed.

Lemma delegate_normpath ms s x : mount_delegate ms s = Ok x -> exists ns, normpath s = Ok ns.
Proof.
  unfold mount_delegate, mount_key. destruct (normpath s) as [ns|e|k]; intro H; try discriminate H.
  exists ns. reflexivity.
Qed.

Lemma assoc_del_same {A} k (l : list (str * A)) : NoDup (keys l) -> assoc k (assoc_del k l) = None.
Proof.
  induction l as [|[k' v] r IH]; intro ND; [reflexivity|].
  cbn [keys map fst] in ND. inversion ND as [|x xs Hnin ND']; subst.
  cbn [assoc_del]. destruct (str_eqb k k') eqn:E.
  - apply str_eqb_eq in E. subst k'. destruct (assoc k r) as [v'|] eqn:Ea; [|reflexivity].
    exfalso. apply Hnin. eapply assoc_some_in. exact Ea.
  - cbn [assoc]. rewrite E. apply IH. exact ND'.
Qed.

Lemma lookup_del_same p : forall t, wf_node t -> p <> [] -> lookup (del t p) p = None.
Proof.
  induction p as [|c rest IH]; intros t W Hne; [congruence|].
  destruct t as [dt m|ents m]; [reflexivity|].
  destruct rest as [|c2 r2].
  - cbn [del lookup]. rewrite assoc_del_same; [reflexivity|]. apply wf_node_dir in W. tauto.
  - rewrite del_cons_ne by discriminate. destruct (assoc c ents) as [ch|] eqn:Ea.
    + cbn [lookup]. rewrite assoc_set_same. apply IH; [eapply wf_assoc; eassumption|discriminate].
    + cbn [lookup]. rewrite Ea. reflexivity.
Qed.

(* what FS.upload (+ the optional copy of the modified time) does to the destination member *)
Lemma dst_upload rd d c data tj ents m ov :
  rpath rd = inl (d ++ [c]) -> lookup tj d = Some (Dir ents m) ->
  (match lookup tj (d ++ [c]) with None => True | Some (File _ _) => ov = true | Some (Dir _ _) => False end) ->
  exists m1, mem_openwrite rd m_wb (match data with [] => None | _ => Some data end) tj
             = (put tj (d ++ [c]) (File data m1), Ok tt).
Proof.
  intros R Hl Hd.
  rewrite (mem_openwrite_snoc rd d c m_wb _ tj R m_wb_valid) by (right; reflexivity).
  rewrite Hl. rewrite lookup_snoc, Hl in Hd.
  change (m_create m_wb) with true. change (m_exclusive m_wb) with false. cbn [andb].
  destruct (assoc c ents) as [[old mt|e2 m2]|].
  - unfold ow_state. change (m_truncate m_wb) with true. cbv iota.
    destruct data as [|b0 data']; [exists mt|exists None]; reflexivity.
  - destruct Hd.
  - exists None. destruct data; reflexivity.
Qed.

Lemma dst_setinfo rd d c data m1 mt tj ents m :
  rpath rd = inl (d ++ [c]) -> lookup tj d = Some (Dir ents m) ->
  mem_setinfo rd mt (put tj (d ++ [c]) (File data m1)) = (put tj (d ++ [c]) (File data mt), Ok tt).
Proof.
  intros R Hl. rewrite (mem_setinfo_spec rd _ mt _ R).
  rewrite (lookup_put_same _ _ _ _ _ _ Hl). rewrite put_put. reflexivity.
Qed.

Section Across.
  Variables (st : tstate) (i j : nat) (ci cj : str) (ti tj : node).
  Hypothesis Hni : nth_error (t_mounts st) i = Some (ci, ti).
  Hypothesis Hnj : nth_error (t_mounts st) j = Some (cj, tj).
  Hypothesis Hij : i <> j.

  Let E := emb_mount st j cj.

  Lemma E_self : E tj = st.
  Proof. apply emb_mount_self. exact Hnj. Qed.

  Lemma E_nth_i t : nth_error (t_mounts (E t)) i = Some (ci, ti).
  Proof. unfold E, emb_mount. cbn [t_mounts]. rewrite nth_error_set_nth_neq by congruence. exact Hni. Qed.

  Lemma E_nth_j t : nth_error (t_mounts (E t)) j = Some (cj, t).
  Proof. unfold E, emb_mount. cbn [t_mounts]. apply nth_error_set_nth_eq. eapply nth_error_lt. exact Hnj. Qed.

  Lemma E_keys t : mounts_of (E t) = mounts_of st.
  Proof. apply (emb_mount_keys _ _ _ _ _ Hnj). Qed.

  (* a query of member i leaves the composite state alone *)
  Lemma route_src_E {A} p rel (f : str -> MM A) t a :
    mount_delegate (mounts_of st) p = Ok (Some (i, rel)) -> f rel ti = (ti, a) ->
    route p f (E t) = (E t, a).
  Proof.
    intros H Hf. rewrite (route_member p f (E t) i rel) by (rewrite E_keys; exact H).
    unfold on_mount. rewrite (on_nth_query i (f rel) _ ci ti (E_nth_i t)) by (rewrite Hf; reflexivity).
    rewrite Hf. cbn [snd]. rewrite tstate_eta. reflexivity.
  Qed.

  Lemma route_dst_E {A} p rel (f : str -> MM A) t :
    mount_delegate (mounts_of st) p = Ok (Some (j, rel)) ->
    route p f (E t) = (E (fst (f rel t)), snd (f rel t)).
  Proof. intro H. apply (tracks_route_member st j cj tj p rel Hnj H A f t). Qed.

  Variables (s d rs rd : str) (cs dd : list str) (dc : str) (data : bytes) (mt : option Z) (ents : list (str * node)) (dm : option Z).
  Hypothesis Hs : mount_delegate (mounts_of st) s = Ok (Some (i, rs)).
  Hypothesis Hd : mount_delegate (mounts_of st) d = Ok (Some (j, rd)).
  Hypothesis Rs : rpath rs = inl cs.
  Hypothesis Rd : rpath rd = inl (dd ++ [dc]).
  Hypothesis Wi : wf ti.
  Hypothesis Ls : lookup ti cs = Some (File data mt).
  Hypothesis Lp : lookup tj dd = Some (Dir ents dm).

  Variables ns nd : str.
  Hypothesis Ns : normpath s = Ok ns.
  Hypothesis Nd : normpath d = Ok nd.

  Lemma Hs' : mount_delegate (mounts_of st) (abspath ns) = Ok (Some (i, rs)).
  Proof. rewrite (mount_delegate_validated _ _ _ Ns). exact Hs. Qed.
  Lemma Hd' : mount_delegate (mounts_of st) (abspath nd) = Ok (Some (j, rd)).
  Proof. rewrite (mount_delegate_validated _ _ _ Nd). exact Hd. Qed.

  Lemma src_dst_differ : str_eqb (abspath ns) (abspath nd) = false.
  Proof.
    apply str_eqb_neq. intro H. pose proof Hs' as A1. rewrite H, Hd' in A1. congruence.
  Qed.

  Lemma cs_snoc : exists sd sc, cs = sd ++ [sc].
  Proof.
    destruct (list_snoc_case cs) as [->|[sd [sc ->]]]; [|eauto].
    cbn [lookup] in Ls. injection Ls as Ls'. destruct Wi as [W _]. rewrite Ls' in W. discriminate W.
  Qed.

  Lemma validate_src t : mount_validatepath s (E t) = (E t, Ok (abspath ns)).
  Proof.
    unfold mount_validatepath.
    rewrite (bind_ok _ _ _ _ _ (route_src_E s rs mem_validatepath t _ Hs (validate_inl _ _ ti Rs))).
    unfold mbind, lift, ret. rewrite Ns. reflexivity.
  Qed.

  Lemma validate_dst t : mount_validatepath d (E t) = (E t, Ok (abspath nd)).
  Proof.
    unfold mount_validatepath, mbind.
    rewrite (route_dst_E d rd mem_validatepath t Hd). rewrite (validate_inl _ _ t Rd). cbn [fst snd].
    unfold lift, ret. rewrite Nd. reflexivity.
  Qed.

  Variables ov pt : bool.
  Hypothesis Hdst : match lookup tj (dd ++ [dc]) with None => True | Some (File _ _) => ov = true | Some (Dir _ _) => False end.

  Let Hr_dst : forall A (f : str -> MM A), tracks E (route (abspath nd) f) (f rd) :=
    tracks_route_member st j cj tj (abspath nd) rd Hnj Hd'.

  Let Hg_dst : tracks E (mount_getinfo (abspath nd)) (x <- mem_getinfo rd ;; ret (mount_point_name (abspath nd) rd x)) :=
    tracks_getinfo_member st j cj tj (abspath nd) rd Hnj Hd'.

  Lemma exists_dst t : b_exists mount_low (abspath nd) (E t)
    = (E t, Ok (match lookup t (dd ++ [dc]) with Some _ => true | None => false end)).
  Proof.
    rewrite (tracks_exists E (abspath nd) rd _ Hg_dst t). unfold mem_exists.
    rewrite (mem_exists_spec _ _ t Rd). reflexivity.
  Qed.

  Lemma guard_dst : (if ov then ret false else b_exists mount_low (abspath nd)) (E tj) = (E tj, Ok false).
  Proof.
    destruct ov; [reflexivity|]. rewrite exists_dst.
    destruct (lookup tj (dd ++ [dc])) as [[x y|x y]|]; [discriminate Hdst|destruct Hdst|reflexivity].
  Qed.

  Lemma read_src t : route (abspath ns) mem_openread (E t) = (E t, Ok data).
  Proof.
    destruct cs_snoc as (sd & sc & Ecs). apply (route_src_E _ rs); [exact Hs'|].
    pose proof Rs as Rs'. pose proof Ls as Ls'. rewrite Ecs in Rs', Ls'.
    rewrite (mem_openread_snoc _ _ _ ti Rs'). rewrite lookup_snoc in Ls'.
    destruct (lookup ti sd) as [[x y|e m]|]; try discriminate Ls'. rewrite Ls'. reflexivity.
  Qed.

  Lemma getinfo_src t : mount_getinfo (abspath ns) (E t)
    = (E t, Ok (mount_point_name (abspath ns) rs (to_info (last cs []) (File data mt)))).
  Proof.
    assert (Hm : (x <- mem_getinfo rs ;; ret (mount_point_name (abspath ns) rs x)) ti
                 = (ti, Ok (mount_point_name (abspath ns) rs (to_info (last cs []) (File data mt))))).
    { unfold mbind, ret. rewrite (mem_getinfo_spec _ _ ti Rs), Ls. reflexivity. }
    unfold mount_getinfo. rewrite E_keys, Hs'. unfold on_mount.
    rewrite (on_nth_query i _ _ ci ti (E_nth_i t)) by (rewrite Hm; reflexivity).
    rewrite Hm. cbn [snd]. rewrite tstate_eta. reflexivity.
  Qed.

  Lemma upload_dst : exists m1, b_upload mount_low (abspath nd) data (E tj)
    = (E (put tj (dd ++ [dc]) (File data m1)), Ok tt).
  Proof.
    destruct (dst_upload rd dd dc data tj ents dm ov Rd Lp Hdst) as [m1 H]. exists m1.
    unfold b_upload. cbn [l_openwrite mount_low].
    rewrite (tracks_openwrite E (abspath nd) rd Hr_dst m_wb _ eq_refl tj).
    assert (X : forall r : node * outcome unit, r = (put tj (dd ++ [dc]) (File data m1), Ok tt) ->
                (E (fst r), snd r) = (E (put tj (dd ++ [dc]) (File data m1)), Ok tt)) by (intros r ->; reflexivity).
    apply X. exact H.
  Qed.

  Lemma setinfo_dst m1 mt' :
    route (abspath nd) (fun x => mem_setinfo x mt') (E (put tj (dd ++ [dc]) (File data m1)))
    = (E (put tj (dd ++ [dc]) (File data mt')), Ok tt).
  Proof.
    rewrite (route_dst_E _ rd) by exact Hd'. rewrite (dst_setinfo rd dd dc data m1 mt' tj ents dm Rd Lp). reflexivity.
  Qed.

  Lemma copy_mtime m1 :
    b_copy_modified_time mount_low (abspath ns) (abspath nd) (E (put tj (dd ++ [dc]) (File data m1)))
    = (E (put tj (dd ++ [dc]) (File data mt)), Ok tt).
  Proof.
    unfold b_copy_modified_time. cbn [l_getinfo l_setinfo mount_low].
    rewrite (bind_ok _ _ _ _ _ (getinfo_src _)). rewrite mount_point_name_mt. cbn [i_mt to_info node_mt]. apply setinfo_dst.
  Qed.

  Lemma vmap_ok {S A} (g : A -> value) (m : M S A) x x' a : m x = (x', Ok a) -> vmap g m x = (x', Ok (g a)).
  Proof. intro H. unfold vmap. rewrite (bind_ok _ _ _ _ _ H). reflexivity. Qed.

  Lemma copy_across_run : exists m',
    mount_run (OCopy s d ov pt) (E tj) = (E (put tj (dd ++ [dc]) (File data m')), Ok VUnit).
  Proof.
    destruct upload_dst as [m1 Hu]. exists (if pt then mt else m1).
    cbn [mount_run]. apply (vmap_ok (fun _ : unit => VUnit) _ _ _ tt). unfold mount_copy. rewrite b_copy_body. cbn [l_validatepath mount_low].
    rewrite (bind_ok _ _ _ _ _ (validate_src tj)). rewrite (bind_ok _ _ _ _ _ (validate_dst tj)).
    unfold copy_body. rewrite (bind_ok _ _ _ _ _ guard_dst). rewrite src_dst_differ.
    cbn [l_openread mount_low]. rewrite (bind_ok _ _ _ _ _ (read_src tj)). rewrite (bind_ok _ _ _ _ _ Hu).
    destruct pt; [apply copy_mtime|reflexivity].
  Qed.

  Lemma remove_src t : mount_remove (abspath ns) (E t)
    = ({| t_default := t_default st; t_mounts := set_nth i (ci, del ti cs) (t_mounts (E t)) |}, Ok tt).
  Proof.
    unfold mount_remove. rewrite (route_member _ _ (E t) i rs) by (rewrite E_keys; exact Hs').
    unfold on_mount. rewrite (on_nth_some i _ _ ci ti (E_nth_i t)).
    destruct cs_snoc as (sd & sc & Ecs).
    pose proof Rs as Rs'. pose proof Ls as Ls'. rewrite Ecs in Rs', Ls'.
    rewrite (mem_remove_snoc _ _ _ ti Rs'). rewrite lookup_snoc in Ls'.
    destruct (lookup ti sd) as [[x y|e m]|]; try discriminate Ls'. rewrite Ls'. rewrite Ecs. reflexivity.
  Qed.

  Lemma move_across_run : exists m',
    mount_run (OMove s d ov pt) (E tj)
    = ({| t_default := t_default st;
          t_mounts := set_nth i (ci, del ti cs) (t_mounts (E (put tj (dd ++ [dc]) (File data m')))) |}, Ok VUnit).
  Proof.
    destruct upload_dst as [m1 Hu]. exists (if pt then mt else m1).
    cbn [mount_run]. apply (vmap_ok (fun _ : unit => VUnit) _ _ _ tt). rewrite b_move_body. cbn [l_validatepath mount_low].
    rewrite (bind_ok _ _ _ _ _ (validate_src tj)). rewrite (bind_ok _ _ _ _ _ (validate_dst tj)).
    unfold move_body. rewrite (bind_ok _ _ _ _ _ guard_dst).
    cbn [l_getinfo l_openread l_remove mount_low].
    rewrite (bind_ok _ _ _ _ _ (getinfo_src tj)). rewrite mount_point_name_isdir. cbn [i_isdir to_info is_dir].
    rewrite src_dst_differ.
    rewrite (bind_ok _ _ _ _ _ (read_src tj)). rewrite (bind_ok _ _ _ _ _ Hu).
    destruct pt.
    - rewrite (bind_ok _ _ _ _ _ (copy_mtime m1)). apply remove_src.
    - unfold ret at 1. unfold mbind at 1. apply remove_src.
  Qed.
End Across.

Lemma mount_tree_emb_same st j cj tj t : nth_error (t_mounts st) j = Some (cj, tj) ->
  mount_tree (emb_mount st j cj t) j = t.
Proof.
  intro H. unfold mount_tree, tree_at, emb_mount. cbn [t_mounts].
  rewrite nth_error_set_nth_eq by (eapply nth_error_lt; exact H). reflexivity.
Qed.

Lemma mount_tree_emb_other st j cj t k : k <> j -> mount_tree (emb_mount st j cj t) k = mount_tree st k.
Proof.
  intro H. unfold mount_tree, tree_at, emb_mount. cbn [t_mounts].
  rewrite nth_error_set_nth_neq by congruence. reflexivity.
Qed.

Lemma mount_tree_nth st i c t : nth_error (t_mounts st) i = Some (c, t) -> mount_tree st i = t.
Proof. intro H. unfold mount_tree, tree_at. rewrite H. reflexivity. Qed.

From Coq Require Import String.
Local Open Scope string_scope. Local Open Scope list_scope.

(* the last conjunct as given ("every q that cd is not a prefix of") is false: the ancestors of the
   destination (its parent directory, the member's root q = []) are directories that gain the new entry *)
Example mount_copy_across_ce :
  let r := mount_run (OCopy (p "/a/x") (p "/ab/y") false false) ex_mount in
  (mount_delegate (mounts_of ex_mount) (p "/ab/y"), rpath (p "y"), list_prefix [p "y"] [],
   lookup (mount_tree (fst r) 1) [], lookup (mount_tree ex_mount 1) [])
  = (Ok (Some (1, p "y")), inl [p "y"], false,
     Some (xd [("x", xf "in-ab"); ("y", xf "in-a")]), Some (xd [("x", xf "in-ab")])).
Proof. vm_compute. reflexivity. Qed.

(* STATEMENT CHANGED: in the last conjunct q must also not be an ancestor of the destination
   (list_prefix q cd = false): the directories above cd contain the new file (mount_copy_across_ce, q = []) *)
Theorem mount_copy_across : forall s d ov pt st i j rs rd cs cd data mt, mount_keys_ok st = true ->
  i < List.length (t_mounts st) -> j < List.length (t_mounts st) -> i <> j ->
  mount_delegate (mounts_of st) s = Ok (Some (i, rs)) -> mount_delegate (mounts_of st) d = Ok (Some (j, rd)) ->
  rpath rs = inl cs -> rpath rd = inl cd -> wf (mount_tree st i) -> wf (mount_tree st j) ->
  lookup (mount_tree st i) cs = Some (File data mt) ->
  cd <> [] -> (exists ents m, lookup (mount_tree st j) (removelast cd) = Some (Dir ents m)) ->
  (match lookup (mount_tree st j) cd with None => True | Some (File _ _) => ov = true | Some (Dir _ _) => False end) ->
  let r := mount_run (OCopy s d ov pt) st in
  snd r = Ok VUnit /\
  (exists m', lookup (mount_tree (fst r) j) cd = Some (File data m')) /\
  mount_tree (fst r) i = mount_tree st i /\ t_default (fst r) = t_default st /\
  (forall k, k <> j -> mount_tree (fst r) k = mount_tree st k) /\
  (forall q, list_prefix cd q = false -> list_prefix q cd = false ->
             lookup (mount_tree (fst r) j) q = lookup (mount_tree st j) q).
Proof.
  intros s d ov pt st i j rs rd cs cd data mt _ Hi Hj Hij Hs Hd Rs Rd Wi _ Ls Hne [ents [m Lp]] Hdst r.
  destruct (nth_error (t_mounts st) i) as [[ci ti]|] eqn:Hni; [|apply nth_error_None in Hni; lia].
  destruct (nth_error (t_mounts st) j) as [[cj tj]|] eqn:Hnj; [|apply nth_error_None in Hnj; lia].
  rewrite (mount_tree_nth _ _ _ _ Hni) in *. rewrite (mount_tree_nth _ _ _ _ Hnj) in *.
  destruct (list_snoc_case cd) as [->|[dd [dc ->]]]; [congruence|]. rewrite removelast_last in Lp.
  destruct (delegate_normpath _ _ _ Hs) as [ns Ns]. destruct (delegate_normpath _ _ _ Hd) as [nd Nd].
  destruct (copy_across_run st i j ci cj ti tj Hni Hnj Hij s d rs rd cs dd dc data mt ents m
              Hs Hd Rs Rd Wi Ls Lp ns nd Ns Nd ov pt Hdst) as [m' Hrun].
  rewrite (emb_mount_self _ _ _ _ Hnj) in Hrun. subst r. rewrite Hrun. cbn [fst snd].
  rewrite (mount_tree_emb_same _ _ _ _ _ Hnj).
  split; [reflexivity|]. split.
  { exists m'. apply (lookup_put_same _ _ _ _ _ _ Lp). }
  split.
  { rewrite mount_tree_emb_other by exact Hij. apply (mount_tree_nth _ _ _ _ Hni). }
  split; [reflexivity|]. split.
  { intros k Hk. apply mount_tree_emb_other. exact Hk. }
  intros q H1 H2. apply lookup_put_diverge. apply diverge_of_prefix; assumption.
Qed.
Print Assumptions mount_copy_across.

(* copy "/a/x" -> "/ab/y" across mounts 0 and 1 *)
Example mount_copy_across_ex :
  let r := mount_run (OCopy (p "/a/x") (p "/ab/y") false true) ex_mount in
  (snd r, t_default (fst r), mount_tree (fst r) 0, mount_tree (fst r) 1, mount_tree (fst r) 2)
  = (Ok VUnit, t_default ex_mount, mount_tree ex_mount 0, xd [("x", xf "in-ab"); ("y", xf "in-a")], mount_tree ex_mount 2).
Proof. vm_compute. reflexivity. Qed.

(* F4: move ACROSS two members: as F3 and the source disappears from member i *)
Theorem mount_move_across : forall s d ov pt st i j rs rd cs cd data mt, mount_keys_ok st = true ->
  i < List.length (t_mounts st) -> j < List.length (t_mounts st) -> i <> j ->
  mount_delegate (mounts_of st) s = Ok (Some (i, rs)) -> mount_delegate (mounts_of st) d = Ok (Some (j, rd)) ->
  rpath rs = inl cs -> rpath rd = inl cd -> wf (mount_tree st i) -> wf (mount_tree st j) ->
  lookup (mount_tree st i) cs = Some (File data mt) ->
  cd <> [] -> (exists ents m, lookup (mount_tree st j) (removelast cd) = Some (Dir ents m)) ->
  (match lookup (mount_tree st j) cd with None => True | Some (File _ _) => ov = true | Some (Dir _ _) => False end) ->
  let r := mount_run (OMove s d ov pt) st in
  snd r = Ok VUnit /\ (exists m', lookup (mount_tree (fst r) j) cd = Some (File data m')) /\
  lookup (mount_tree (fst r) i) cs = None /\ t_default (fst r) = t_default st /\
  (forall k, k <> j -> k <> i -> mount_tree (fst r) k = mount_tree st k).
Proof.
  intros s d ov pt st i j rs rd cs cd data mt _ Hi Hj Hij Hs Hd Rs Rd Wi _ Ls Hne [ents [m Lp]] Hdst r.
  destruct (nth_error (t_mounts st) i) as [[ci ti]|] eqn:Hni; [|apply nth_error_None in Hni; lia].
  destruct (nth_error (t_mounts st) j) as [[cj tj]|] eqn:Hnj; [|apply nth_error_None in Hnj; lia].
  rewrite (mount_tree_nth _ _ _ _ Hni) in *. rewrite (mount_tree_nth _ _ _ _ Hnj) in *.
  destruct (list_snoc_case cd) as [->|[dd [dc ->]]]; [congruence|]. rewrite removelast_last in Lp.
  destruct (delegate_normpath _ _ _ Hs) as [ns Ns]. destruct (delegate_normpath _ _ _ Hd) as [nd Nd].
  destruct (move_across_run st i j ci cj ti tj Hni Hnj Hij s d rs rd cs dd dc data mt ents m
              Hs Hd Rs Rd Wi Ls Lp ns nd Ns Nd ov pt Hdst) as [m' Hrun].
  rewrite (emb_mount_self _ _ _ _ Hnj) in Hrun. subst r. rewrite Hrun. cbn [fst snd].
  assert (Li : i < List.length (t_mounts (emb_mount st j cj (put tj (dd ++ [dc]) (File data m'))))).
  { unfold emb_mount. cbn [t_mounts]. rewrite set_nth_length. exact Hi. }
  assert (cs <> []) as Hcs.
  { intro Ecs. rewrite Ecs in Ls. cbn [lookup] in Ls. injection Ls as Ls'. destruct Wi as [W _]. rewrite Ls' in W. discriminate W. }
  split; [reflexivity|]. split.
  { exists m'. unfold mount_tree, tree_at. cbn [t_mounts]. rewrite nth_error_set_nth_neq by exact Hij.
    unfold emb_mount. cbn [t_mounts]. rewrite nth_error_set_nth_eq by exact Hj.
    apply (lookup_put_same _ _ _ _ _ _ Lp). }
  split.
  { unfold mount_tree, tree_at. cbn [t_mounts]. rewrite nth_error_set_nth_eq by exact Li.
    apply lookup_del_same; [apply Wi|exact Hcs]. }
  split; [reflexivity|].
  intros k Hkj Hki. unfold mount_tree, tree_at. cbn [t_mounts].
  rewrite nth_error_set_nth_neq by congruence. unfold emb_mount. cbn [t_mounts].
  rewrite nth_error_set_nth_neq by congruence. reflexivity.
Qed.
Print Assumptions mount_move_across.

(* move "/a/x" -> "/ab/y" across mounts 0 and 1: the file leaves mount 0 and arrives in mount 1 *)
Example mount_move_across_ex :
  let r := mount_run (OMove (p "/a/x") (p "/ab/y") false true) ex_mount in
  (snd r, t_default (fst r), mount_tree (fst r) 0, mount_tree (fst r) 1, mount_tree (fst r) 2)
  = (Ok VUnit, t_default ex_mount, xd [("s", xd [("t", xf "t")])],
     xd [("x", xf "in-ab"); ("y", xf "in-a")], mount_tree ex_mount 2).
Proof. vm_compute. reflexivity. Qed.

(* move "/a/x" -> "/a/s/m" inside mount 0: only mount 0 changes *)
Example mount_move_within_ex :
  let r := mount_run (OMove (p "/a/x") (p "/a/s/m") false false) ex_mount in
  (snd r, t_default (fst r), mount_tree (fst r) 0, mount_tree (fst r) 1, mount_tree (fst r) 2)
  = (Ok VUnit, t_default ex_mount, xd [("s", xd [("t", xf "t"); ("m", xf "in-a")])],
     mount_tree ex_mount 1, mount_tree ex_mount 2).
Proof. vm_compute. reflexivity. Qed.

Example mount_move_within_thm_ex :
  mount_run (OMove (p "/a/x") (p "/a/s/m") false false) ex_mount
  = on_mount 0 (vmap (fun _ => VUnit) (b_move mem_low (p "x") (p "s/m") false false)) ex_mount.
Proof. apply mount_move_within; vm_compute; try reflexivity. lia. Qed.

(* move "own" -> "/c/d/own" from the default tree into mount 2: the default tree loses "own" (its mount-point
   directories stay), mount 2 gains it, mounts 0 and 1 are unchanged *)
Example mount_move_default_to_mount_ex :
  let r := mount_run (OMove (p "own") (p "/c/d/own") false false) ex_mount in
  (mount_delegate (mounts_of ex_mount) (p "own"), mount_delegate (mounts_of ex_mount) (p "/c/d/own"),
   snd r, t_default (fst r), mount_tree (fst r) 0, mount_tree (fst r) 1, mount_tree (fst r) 2)
  = (Ok None, Ok (Some (2, p "own")),
     Ok VUnit, xd [("a", xd []); ("ab", xd []); ("c", xd [("d", xd [])])],
     mount_tree ex_mount 0, mount_tree ex_mount 1, xd [("own", xf "own")]).
Proof. vm_compute. reflexivity. Qed.
