(* Dispatchers for walk / glob / file-object models. *)
From Coq Require Import List NArith ZArith Bool Arith String.
From PyFS Require Import Base.PyStr Base.Outcome Base.Render Path.PathModel Path.PathSpec FS.Tree FS.Ops
     FS.Agree Glob.ShellSpec Walk.WalkModel Walk.WalkOpts IO.MemFile Route.Route IO.CopyData IO.MakeStream Sandbox.Sandbox.
Import ListNotations.
Local Open Scope string_scope. Local Open Scope list_scope.

(* optional pattern list: "-" = None ; otherwise [n] followed by n patterns *)
Definition take_pats (ts : list str) : option (list str) * list str :=
  match ts with
  | [] :: rest => (None, rest)
  | (c :: _) :: rest => let n := N.to_nat c in (Some (firstn n rest), skipn n rest)
  | [] => (None, [])
  end.

Definition opt_nat (t : str) : option nat := match t with c :: _ => Some (N.to_nat c) | [] => None end.

Definition r_event (e : event) : str :=
  r_pair r_str (r_option (r_pair r_str r_bool)) e.

(* walk <tree> <start path> <depth_first> <max_depth> <case> <6 optional pattern lists> <what> *)
Definition run_walk (name : str) (args : list str) : str :=
  match decode_tree (S (List.length args)) args with
  | Some (t, path :: df :: md :: cs :: rest) =>
    let '(f1, r1) := take_pats rest in
    let '(f2, r2) := take_pats r1 in
    let '(f3, r3) := take_pats r2 in
    let '(f4, r4) := take_pats r3 in
    let '(f5, r5) := take_pats r4 in
    let '(f6, _) := take_pats r5 in
    let o := {| o_filter := f1; o_exclude := f2; o_filter_dirs := f3; o_exclude_dirs := f4;
                o_filter_glob := f5; o_exclude_glob := f6; o_max_depth := opt_nat md;
                o_case := tbool cs |} in
    let start := match lookup t (match resolve (comps path) with Some c => c | None => [] end) with
                 | Some n => n | None => t end in
    (* Walker._iter_walk normalises the start path (walk, files, dirs and info alike; /repo b3334b1) *)
    let path := match normpath path with Ok n => abspath n | _ => path end in
    match walk_model o (tbool df) path start with
    | None => lit "crash:NonTermination"
    | Some evs =>
      if str_eqb name (lit "events") then r_list r_event evs
      else if str_eqb name (lit "info") then r_list (r_pair r_str r_bool) (info_stream evs)
      else if str_eqb name (lit "files") then r_list r_str (files_stream evs)
      else if str_eqb name (lit "dirs") then r_list r_str (dirs_stream evs)
      else if str_eqb name (lit "walk") then
        r_list (fun s : step => r_pair r_str (r_pair (r_list r_str) (r_list r_str))
                                       (fst (fst s), (snd (fst s), snd s)))
               (regroup evs [])
      else lit "?what"
    end
  | _ => lit "?args"
  end.

(* glob/wildcard reference matchers *)
Definition run_glob (name : str) (a : list str) : str :=
  if str_eqb name (lit "wild") then r_bool (wild_spec (arg_bool 0 a) (arg 1 a) (arg 2 a))
  else if str_eqb name (lit "glob") then
    (* case, pattern, path (components from the string), is_dir *)
    match resolve (comps (arg 2 a)) with
    | Some pc => r_option r_bool (glob_spec (arg_bool 0 a) (arg 1 a) pc (arg_bool 3 a))
    | None => lit "undef"
    end
  else if str_eqb name (lit "plain") then r_bool (plain_pattern (arg 0 a))
  else if str_eqb name (lit "levels") then r_option r_nat (levels (arg 0 a))
  else lit "?unknown".

(* file objects: <content> then steps: [1] mode  |  [2] [i] [opcode] args *)
Fixpoint decode_fsteps (fuel : nat) (ts : list str) : list fstep :=
  match fuel with
  | O => []
  | S f =>
    match ts with
    | [1%N] :: mode :: rest => SOpen mode :: decode_fsteps f rest
    | [2%N] :: i :: [c] :: rest =>
      let idx := match i with x :: _ => N.to_nat x | [] => O end in
      let a := fun n => nth n rest [] in
      match N.to_nat c with
      | 1 => SCall idx (FRead (opt_nat (a 0))) :: decode_fsteps f (skipn 1 rest)
      | 2 => SCall idx FReadline :: decode_fsteps f rest
      | 3 => SCall idx (FWrite (a 0)) :: decode_fsteps f (skipn 1 rest)
      | 4 => SCall idx (FWritelines [a 0; a 1]) :: decode_fsteps f (skipn 2 rest)
      | 5 => (* seek: magnitude, sign, whence *)
        let mag := match a 0 with x :: _ => Z.of_N x | [] => 0%Z end in
        let off := if tbool (a 1) then (- mag)%Z else mag in
        let wh := match a 2 with x :: _ => N.to_nat x | [] => O end in
        SCall idx (FSeek off wh) :: decode_fsteps f (skipn 3 rest)
      | 6 => SCall idx FTell :: decode_fsteps f rest
      | 7 => SCall idx (FTruncate (opt_nat (a 0))) :: decode_fsteps f (skipn 1 rest)
      | 8 => SCall idx FFlush :: decode_fsteps f rest
      | _ => []
      end
    | _ => []
    end
  end.

Definition r_fres (r : fres) : str :=
  match r with
  | RBytes b => lit "b" ++ r_str b
  | RNat n => r_nat n
  | RUnit => lit "U"
  | RRejected => lit "rejected"
  end.

Definition run_file (name : str) (args : list str) : str :=
  match args with
  | content :: rest =>
    let steps := decode_fsteps (S (List.length rest)) rest in
    if str_eqb name (lit "mem") then
      let '(s, rs) := mem_frun (mem_init content) steps in
      r_list r_fres rs ++ lit "#" ++ r_str (b_buf (m_bio s)) ++ lit "#"
        ++ r_list r_nat (map h_pos (m_handles s))
    else if str_eqb name (lit "ref") then
      let '(s, rs) := ref_frun (ref_init content) steps in
      r_list r_fres rs ++ lit "#" ++ r_str (r_data s) ++ lit "#"
        ++ r_list r_nat (map h_pos (r_handles s))
    else lit "?unknown"
  | [] => lit "?args"
  end.

(* routing: "mount" <path> <n> <mount path 1> ... ; "order" <n> <prio sign mag>... *)
Definition r_route (o : outcome (option (nat * str))) : str :=
  r_outcome (r_option (r_pair r_nat r_str)) o.

Fixpoint build_mounts (paths : list str) (i : nat) (acc : mounts) : mounts :=
  match paths with
  | [] => acc
  | p :: r => match mount_add acc p i with
              | Ok (Some m) => build_mounts r (S i) m
              | _ => build_mounts r (S i) acc
              end
  end.

Fixpoint build_members (ts : list str) (i : nat) : list member :=
  match ts with
  | sg :: mg :: r =>
    let z := match mg with x :: _ => Z.of_N x | [] => 0%Z end in
    {| m_prio := if tbool sg then (- z)%Z else z; m_index := i; m_id := i |} :: build_members r (S i)
  | _ => []
  end.

Definition run_route (name : str) (a : list str) : str :=
  if str_eqb name (lit "mount") then
    match a with
    | path :: _ :: mps => r_route (mount_delegate (build_mounts mps 0 []) path)
    | _ => lit "?args"
    end
  else if str_eqb name (lit "mountable") then
    (* which of the mount requests are accepted, in order *)
    r_list r_nat (map snd (build_mounts a 0 []))
  else if str_eqb name (lit "order") then
    r_list r_nat (map m_id (iterate_fs (build_members a 0)))
  else lit "?unknown".

(* copy_file_data: <data> <kind 0 default / 1 negative / 2 explicit> <n> <oracle lengths as code points> *)
Definition run_data (name : str) (a : list str) : str :=
  if str_eqb name (lit "copy") then
    let c := match arg_nat 1 a with 0 => CDefault | 1 => CNeg | _ => CNat (arg_nat 2 a) end in
    r_list r_str (copy_file_data (arg 0 a) c (map N.to_nat (arg 3 a)))
  else if str_eqb name (lit "stream") then
    (* mode, buffering sign (0: -1, 1: 0, 2: positive) *)
    let b := match arg_nat 1 a with 0 => (-1)%Z | 1 => 0%Z | _ => 4096%Z end in
    match make_stream_call (arg 0 a) b with
    | None => lit "EXC:ValueError"
    | Some s =>
    (match s_buffer s with NoBuffer => lit "raw" | BufferedRandom => lit "BufferedRandom"
                         | BufferedReader => lit "BufferedReader" | BufferedWriter => lit "BufferedWriter" end)
      ++ lit "/" ++ r_bool (s_text s)
    end
  else lit "?unknown".

Definition run_sandbox (name : str) (a : list str) : str :=
  if str_eqb name (lit "syspath") then r_outcome (r_list r_str) (osfs_syspath [] (arg 0 a))
  else if str_eqb name (lit "subfs") then r_outcome r_str (subfs_delegate (arg 0 a) (arg 1 a))
  else lit "?unknown".
