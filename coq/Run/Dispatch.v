(* Top-level dispatcher of the extracted model: first token selects the domain. *)
From Coq Require Import List NArith Bool String.
From PyFS Require Import Base.PyStr Base.Render Path.PathRun FS.Ops FS.FsRun Run.RunMisc Run.RunGlobRe Run.RunTreeCopy Run.RunTreeArch Run.RunComposite.
Import ListNotations.
Local Open Scope string_scope.

Definition dispatch (tokens : list str) : str :=
  match tokens with
  | dom :: name :: args =>
    if is_name dom "path" then run_path name args
    else if is_name dom "fs" then run_fs2 name args
    else if is_name dom "walk" then run_walk name args
    else if is_name dom "glob" then run_glob name args
    else if is_name dom "file" then run_file name args
    else if is_name dom "route" then run_route name args
    else if is_name dom "data" then run_data name args
    else if is_name dom "sandbox" then run_sandbox name args
    else if is_name dom "globre" then run_globre name args
    else if is_name dom "treecopy" then run_treecopy name args
    else if is_name dom "treearch" then run_treearch name args
    else if is_name dom "composite" then run_composite name args
    else lit "?domain"
  | _ => lit "?empty"
  end.
