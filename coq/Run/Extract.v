(* The only file that extracts. ExtrOcamlBasic only; N, Z, positive, nat stay inductive. *)
Require Extraction.
Require Import ExtrOcamlBasic.
From PyFS Require Import Run.Dispatch.
Extraction "model.ml" dispatch.
