(* Dispatcher domain "composite": the MultiFS / MountFS state models of Route/Composite.v.
     composite multi <k> (<sign> <|prio|> <write> <len> <len op tokens>){k} <op tokens>
     composite mount <len> <len op tokens for default_fs> <k> (<mount path> <len> <len op tokens>){k} <op tokens>
   Every member is a MemoryFS filled by its own history from the empty filesystem; the members
   are added / mounted in the order given (a refused mount is skipped).  Output: "init#<trees>"
   followed by one record "outcome#<trees>" per call; <trees> = the storage trees joined by "|"
   (MultiFS: members in insertion order; MountFS: default_fs, then the mounts in mount order). *)
From Coq Require Import List NArith ZArith Bool Arith String.
From PyFS Require Import Base.PyStr Base.Outcome Base.Render Path.PathModel FS.Tree FS.Monad FS.Base
     FS.Mem FS.Ops Route.Route Route.Composite.
Import ListNotations.
Local Open Scope string_scope. Local Open Scope list_scope.

Definition tnat (t : str) : nat := match t with c :: _ => N.to_nat c | [] => O end.

(* <len> <len tokens>: a history, and the remaining tokens *)
Definition take_hist (ts : list str) : list op * list str :=
  match ts with
  | n :: rest => let k := tnat n in (decode_ops (S k) (firstn k rest), skipn k rest)
  | [] => ([], [])
  end.

Fixpoint fill (ops : list op) (t : node) : node :=
  match ops with
  | [] => t
  | o :: r => fill r (fst (mem_run o t))
  end.

Fixpoint build_multi (k : nat) (ts : list str) (st : mstate) : mstate * list str :=
  match k with
  | O => (st, ts)
  | S k' =>
    match ts with
    | sg :: mg :: w :: rest =>
      let z := match mg with x :: _ => Z.of_N x | [] => 0%Z end in
      let '(ops, rest') := take_hist rest in
      build_multi k' rest'
        (multi_add st (lit "m" ++ nat_dec (List.length st)) (if tbool sg then (- z)%Z else z) (tbool w)
                   (fill ops empty_dir))
    | _ => (st, [])
    end
  end.

Fixpoint build_mount (k : nat) (ts : list str) (st : tstate) : tstate * list str :=
  match k with
  | O => (st, ts)
  | S k' =>
    match ts with
    | path :: rest =>
      let '(ops, rest') := take_hist rest in
      build_mount k' rest' (fst (mount_mount path (fill ops empty_dir) st))
    | [] => (st, [])
    end
  end.

Definition r_mtrees (st : mstate) : str := sep_by (lit "|") (map (fun ct => r_tree (snd ct)) st).
Definition r_ttrees (st : tstate) : str :=
  sep_by (lit "|") (r_tree (t_default st) :: map (fun kt => r_tree (snd kt)) (t_mounts st)).

Fixpoint comp_history {S} (run : op -> M S value) (rt : S -> str) (s : S) (ops : list op) : list str :=
  match ops with
  | [] => []
  | o :: r =>
    let '(s', out) := run o s in
    (r_outcome r_value out ++ lit "#" ++ rt s') :: comp_history run rt s' r
  end.

Definition run_composite (name : str) (args : list str) : str :=
  if str_eqb name (lit "multi") then
    match args with
    | k :: rest =>
      let '(st, rest') := build_multi (tnat k) rest [] in
      sep_by (lit " ") ((lit "init#" ++ r_mtrees st)
                        :: comp_history multi_run r_mtrees st (decode_ops (S (List.length rest')) rest'))
    | [] => lit "?args"
    end
  else if str_eqb name (lit "mount") then
    let '(dops, rest) := take_hist args in
    match rest with
    | k :: rest1 =>
      let st0 := {| t_default := fill dops empty_dir; t_mounts := [] |} in
      let '(st, rest') := build_mount (tnat k) rest1 st0 in
      sep_by (lit " ") ((lit "init#" ++ r_ttrees st)
                        :: comp_history mount_run r_ttrees st (decode_ops (S (List.length rest')) rest'))
    | [] => lit "?args"
    end
  else lit "?unknown".
