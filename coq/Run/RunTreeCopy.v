(* Dispatcher domain "treecopy": the tree-level models of copy_fs_if and mirror (Copy/TreeCopy.v).

     treecopy copy_fs_if <cond 0..4> <preserve_time> <now> <src tree tokens> <dst tree tokens>
     treecopy mirror <copy_if_newer> <preserve_time> <now> <src tree tokens> <dst tree tokens>

   cond: 0 always, 1 newer, 2 older, 3 exists, 4 not_exists; booleans: 1 = true; now: "-" = None or
   a number; trees: the pre-order encoding of FS/Agree.v decode_tree.  Result: r_outcome r_tree. *)
From Coq Require Import List NArith ZArith Bool Arith String.
From PyFS Require Import Base.PyStr Base.Outcome Base.Render FS.Tree FS.Ops FS.Agree
     Copy.CopyCond Copy.TreeCopy.
Import ListNotations.
Local Open Scope string_scope. Local Open Scope list_scope.

Definition cond_of_token (t : str) : option cond :=
  match t with
  | [] => Some Always
  | x :: _ =>
    match N.to_nat x with
    | 0 => Some Always | 1 => Some Newer | 2 => Some Older | 3 => Some Exists | 4 => Some NotExists
    | _ => None
    end
  end.

Definition two_trees (ts : list str) : option (node * node) :=
  match decode_tree (S (List.length ts)) ts with
  | Some (a, rest) =>
    match decode_tree (S (List.length rest)) rest with
    | Some (b, _) => Some (a, b)
    | None => None
    end
  | None => None
  end.

Definition run_treecopy (name : str) (args : list str) : str :=
  match args with
  | a0 :: a1 :: a2 :: rest =>
    match two_trees rest with
    | Some (src, dst) =>
      if str_eqb name (lit "copy_fs_if") then
        match cond_of_token a0 with
        | Some c => r_outcome r_tree (copy_fs_if c (tbool a1) (tmt a2) src dst)
        | None => lit "crash:ValueError"     (* "... is not a valid copy condition." *)
        end
      else if str_eqb name (lit "mirror") then
        r_outcome r_tree (mirror (tbool a0) (tbool a1) (tmt a2) src dst)
      else lit "?unknown"
    | None => lit "?trees"
    end
  | _ => lit "?args"
  end.
