(* Dispatcher domain `treearch`: the tree-level archive model (Archive/TreeArch.v).

   zip_members <tree tokens>      members write_zip emits, as stored by the container (2 s times)
   tar_members <tree tokens>      members write_tar emits
   zip_read    <member tokens>    first-query outcome # presented tree
   tar_read    <member tokens>    presented tree # keys hidden below a non-directory member
   bfs_code    <tree tokens>      T iff the queue formulation of the walk yields the same item list

   tree tokens   : as everywhere (FS/Agree.v decode_tree)
   member tokens : four tokens per member -- name, is_dir ("1" = directory), data, mtime (one number) *)
From Coq Require Import List NArith ZArith Bool Arith String.
From PyFS Require Import Base.PyStr Base.Outcome Base.Render Path.PathSpec FS.Tree FS.Ops FS.Agree
     Archive.TreeArch.
Import ListNotations.
Local Open Scope string_scope. Local Open Scope list_scope.

Definition tZ (t : str) : Z := match t with z :: _ => Z.of_N z | [] => 0%Z end.

Fixpoint decode_members (fuel : nat) (ts : list str) : list member :=
  match fuel with
  | O => []
  | S f =>
    match ts with
    | name :: d :: data :: mt :: rest =>
      {| m_name := name; m_dir := tbool d; m_data := data; m_mt := tZ mt |} :: decode_members f rest
    | _ => []
    end
  end.

Definition r_member (m : member) : str :=
  lit "(" ++ r_str (m_name m) ++ lit "|" ++ r_bool (m_dir m) ++ lit "|" ++ r_str (m_data m)
      ++ lit "|" ++ r_Z (m_mt m) ++ lit ")".

Fixpoint r_vtree (v : vnode) : str :=
  match v with
  | VFile d mt => lit "F" ++ r_outcome r_str d ++ lit "@" ++ r_mt mt
  | VDir ents mt =>
    lit "D@" ++ r_mt mt ++ lit "{" ++
    (fix go (l : list (str * vnode)) : str :=
       match l with
       | [] => []
       | [(k, n)] => r_str k ++ lit ":" ++ r_vtree n
       | (k, n) :: r => r_str k ++ lit ":" ++ r_vtree n ++ lit ";" ++ go r
       end) ents ++ lit "}"
  end.

Fixpoint items_eqb (a b : list (list str * node)) : bool :=
  match a, b with
  | [], [] => true
  | (p, n) :: a', (q, m) :: b' =>
    list_str_eqb p q && Bool.eqb (is_dir n) (is_dir m) && str_eqb (node_data n) (node_data m)
      && items_eqb a' b'
  | _, _ => false
  end.

Definition run_treearch (name : str) (args : list str) : str :=
  if str_eqb name (lit "zip_read") then
    let v := zip_read (decode_members (S (List.length args)) args) in
    r_outcome r_unit (zv_first v) ++ lit "#" ++ r_vtree (zv_tree v)
  else if str_eqb name (lit "tar_read") then
    let ms := decode_members (S (List.length args)) args in
    r_vtree (embed (tar_read ms)) ++ lit "#" ++ r_list r_str (tar_shadowed ms)
  else
    match decode_tree (S (List.length args)) args with
    | Some (t, _) =>
      if str_eqb name (lit "zip_members") then
        r_list r_member (map (store zip_time) (zip_members 0 t))
      else if str_eqb name (lit "tar_members") then
        r_list r_member (map (store tar_time) (tar_members 0 t))
      else if str_eqb name (lit "bfs_code") then r_bool (items_eqb (bfs_code t) (bfs t))
      else lit "?what"
    | None => lit "?tree"
    end.
