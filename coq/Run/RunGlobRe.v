(* Dispatcher for the regex-translation models (domain "globre").

   wild_translate <cs> <pat>            -> s<text>
   wild_full <cs> <pat>                 -> s<"(?ms)" + text + "\Z">  (rendered from the AST)
   glob_translate <pat>                 -> ok:s<text> | crash:ValueError
   glob_translate_glob <pat>            -> ok:(<levels>|s<text>) | err:IllegalBackReference
   glob_full <pat>                      -> the same, text rendered from the AST
   wild_match <cs> <pat> <name>         -> ST | SF | N            (N = re.error)
   glob_match <cs> <pat> <path>         -> ok:ST | ok:SF | ok:N | err:IllegalBackReference
   glob_ok <pat>                        -> T | F   (side condition of the glob theorem)
   re <ci> <subject> <atom>...          -> s<render_full>|<compiles T/F>|<match T/F>
   atoms: [0;c] ALit  [1;c] ARaw  [2] .  [3] [^/]  [4] [^/]*  [5] .*  [6] /?
          [7;body...] class  [8;body...] negated class  [9] ^  [10] $  [11] \Z         *)
From Coq Require Import List NArith Bool String.
From PyFS Require Import Base.PyStr Base.Outcome Base.Render Path.PathSpec Glob.Regex Glob.Translate.
Import ListNotations.
Local Open Scope string_scope. Local Open Scope list_scope.

Definition decode_atom (t : str) : option atom :=
  match t with
  | [0%N; c] => Some (ALit c)
  | [1%N; c] => Some (ARaw c)
  | [2%N] => Some ADot
  | [3%N] => Some ANotSlash
  | [4%N] => Some AStarNotSlash
  | [5%N] => Some ADotStar
  | [6%N] => Some AOptSlash
  | 7%N :: body => Some (AClass false (parse_items body))
  | 8%N :: body => Some (AClass true (parse_items body))
  | [9%N] => Some ABol
  | [10%N] => Some AEol
  | [11%N] => Some AEndZ
  | _ => None
  end.

Fixpoint decode_atoms (ts : list str) : option regex :=
  match ts with
  | [] => Some []
  | t :: r => match decode_atom t, decode_atoms r with
              | Some a, Some l => Some (a :: l)
              | _, _ => None
              end
  end.

Definition r_lv_text (x : option nat * str) : str := r_pair (r_option r_nat) r_str x.

Definition run_globre (name : str) (a : list str) : str :=
  if str_eqb name (lit "wild_translate") then r_str (wild_translate (arg_bool 0 a) (arg 1 a))
  else if str_eqb name (lit "wild_full") then r_str (render_full (wild_regex (arg_bool 0 a) (arg 1 a)))
  else if str_eqb name (lit "glob_translate") then r_outcome r_str (glob_translate (arg 0 a))
  else if str_eqb name (lit "glob_translate_glob") then r_outcome r_lv_text (glob_translate_glob (arg 0 a))
  else if str_eqb name (lit "glob_full") then
    r_outcome r_lv_text (omap (fun x : option nat * regex => (fst x, render_full (snd x)))
                              (glob_translate_glob_ast (arg 0 a)))
  else if str_eqb name (lit "wild_match") then
    r_option r_bool (wild_match_model (arg_bool 0 a) (arg 1 a) (arg 2 a))
  else if str_eqb name (lit "glob_match") then
    r_outcome (r_option r_bool) (glob_match_model (arg_bool 0 a) (arg 1 a) (arg 2 a))
  else if str_eqb name (lit "glob_ok") then r_bool (glob_pattern_ok (arg 0 a))
  else if str_eqb name (lit "re") then
    match decode_atoms (skipn 2 a) with
    | Some r => r_str (render_full r) ++ lit "|" ++ r_bool (re_compiles r) ++ lit "|"
                ++ r_bool (re_match (arg_bool 0 a) r (arg 1 a))
    | None => lit "?atoms"
    end
  else lit "?unknown".
