(* Line-oriented driver around the extracted model.
   Input line: tokens separated by single spaces. The first two tokens (domain, name)
   are ASCII words; every further token is "-" (empty) or comma-separated code points.
   Output line: the characters returned by Model.dispatch. *)
open Model

let rec pos_of_int n =
  if n = 1 then XH
  else if n land 1 = 0 then XO (pos_of_int (n lsr 1))
  else XI (pos_of_int (n lsr 1))
let n_of_int n = if n = 0 then N0 else Npos (pos_of_int n)
let rec int_of_pos = function
  | XH -> 1
  | XO p -> 2 * int_of_pos p
  | XI p -> 2 * int_of_pos p + 1
let int_of_n = function N0 -> 0 | Npos p -> int_of_pos p

let word s = List.init (String.length s) (fun i -> n_of_int (Char.code s.[i]))
let points s =
  if s = "-" then []
  else List.map (fun x -> n_of_int (int_of_string x)) (String.split_on_char ',' s)

let () =
  let buf = Buffer.create 256 in
  (try
    while true do
      let line = input_line stdin in
      let toks = String.split_on_char ' ' line in
      let toks = match toks with
        | d :: n :: rest -> word d :: word n :: List.map points rest
        | l -> List.map word l in
      let out = dispatch toks in
      Buffer.clear buf;
      List.iter (fun c -> Buffer.add_char buf (Char.chr (int_of_n c land 255))) out;
      print_string (Buffer.contents buf); print_char '\n'
    done
  with End_of_file -> ())
